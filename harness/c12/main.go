// C12 — loop summaries agree with what the loop really does.
//
// Generated counted loops are themselves instrumented (enter/rec/leave are ordinary calls)
// and the SAME file is both analysed (loop.DetectLoops + loop.AnalyzeSCEV on the function the
// real fingerprinter built) and executed natively on small argument vectors. Source loop <->
// analysed loop: the SSA call `recN(L, v...)` with constant L sits in exactly one innermost
// analysed loop. Variable <-> phi: the remaining call arguments ARE the header phis (pointer
// identity, no names). Monitor:
//
//	(i)  an induction variable reported as {Start,+,Step}: the value logged at the k-th
//	     header evaluation of an activation must equal Start + k*Step modulo the variable's
//	     width (Start/Step evaluated by the monitor's own evaluator at activation start);
//	(ii) a TripCount that evaluates to a number T: the exit test must have chosen "stay"
//	     exactly T times in every completed activation.
//
// Anything the evaluator cannot evaluate is undecided, never a violation.
package main

import (
	"bufio"
	"bytes"
	"fmt"
	"go/constant"
	"go/token"
	"go/types"
	"math/big"
	"math/rand"
	"os"
	"os/exec"
	"path/filepath"
	"strconv"
	"strings"
	"sync"

	"github.com/BlackVectorOps/semantic_firewall/v3/internal/verifh/lib/evid"
	"github.com/BlackVectorOps/semantic_firewall/v3/pkg/analysis/ir"
	"github.com/BlackVectorOps/semantic_firewall/v3/pkg/analysis/loop"
	"github.com/BlackVectorOps/semantic_firewall/v3/pkg/diff"
	"golang.org/x/tools/go/ssa"
)

const prelude = `package lp

var Trace []int64
var Fuel int

const (
	evEnter = -1000001
	evRec   = -1000002
	evLeave = -1000003
)

func enter(l int) { Trace = append(Trace, evEnter, int64(l)) }
func leave(l int) { Trace = append(Trace, evLeave, int64(l)) }
func tickrec(l int, n int) {
	Fuel--
	if Fuel < 0 {
		panic("fuel")
	}
	Trace = append(Trace, evRec, int64(l), int64(n))
}
func rec1(l int, a int64)            { tickrec(l, 1); Trace = append(Trace, a) }
func rec2(l int, a int64, b int64)   { tickrec(l, 2); Trace = append(Trace, a, b) }
func rec3(l int, a, b, c int64)      { tickrec(l, 3); Trace = append(Trace, a, b, c) }
`

type loopMeta struct {
	ID     int
	Form   string // top | breaktop | breaktop-neg | bottom
	Cmp    string
	Step   string
	Type   string
	Bound  string
	Start  string
	Nested string // "", inner, sibling
	Extra  string // "", continue, condvar, second-iv, flipvar, early-break, early-return
	Hdr    string // how a top-tested loop declares its variable: "" (for v := ..), pre, assign, while
	Swap   bool   // the test is written with the bound on the left: `n > i` for `i < n`
}

type fnMeta struct {
	Name  string
	Loops []loopMeta
	Text  string
}

var cmps = []string{"<", "<=", ">", ">=", "!="}

func mirrorCmp(c string) string {
	return map[string]string{"<": ">", "<=": ">=", ">": "<", ">=": "<=", "!=": "!=", "==": "=="}[c]
}

func negCmp(c string) string {
	return map[string]string{"<": ">=", "<=": ">", ">": "<=", ">=": "<", "!=": "=="}[c]
}

// genLoop writes one loop (possibly with a nested or sibling loop) into b.
func genLoop(r *rand.Rand, b *strings.Builder, id *int, depth int, outerVar string, ind string, metas *[]loopMeta) {
	*id++
	L := *id
	m := loopMeta{ID: L}
	typ := []string{"int", "int", "int", "int8", "uint8", "uint32", "int64", "uint"}[r.Intn(8)]
	m.Type = typ
	up := r.Intn(2) == 0
	k := 1 + r.Intn(5)
	stepParam := typ == "int" && r.Intn(6) == 0
	cmp := ""
	if up {
		cmp = []string{"<", "<=", "!="}[r.Intn(3)]
	} else {
		cmp = []string{">", ">=", "!="}[r.Intn(3)]
	}
	if cmp == "!=" {
		k = 1
		if r.Intn(4) == 0 {
			k = 2 + r.Intn(2) // may step over the bound: only fuel ends it
		}
	}
	m.Cmp = cmp
	v := fmt.Sprintf("i%d", L)
	conv := func(e string) string {
		if typ == "int" {
			return e
		}
		return typ + "(" + e + ")"
	}
	var start, bound string
	ov := ""
	if outerVar != "" {
		ov = "int(" + outerVar + ")"
	}
	lo := []string{"0", "0", "1", "2", "n", ov}[r.Intn(6)]
	if lo == "" {
		lo = "0"
	}
	hi := []string{"n", "n", "10", "7", "m", "n + 3", lo}[r.Intn(7)] // lo: start equals bound
	if typ == "uint8" || typ == "uint32" {
		lo = []string{"0", "1", "3"}[r.Intn(3)]
		hi = []string{"n & 15", "10", "7", "250"}[r.Intn(4)]
	}
	if typ == "int8" {
		hi = []string{"n & 15", "10", "120"}[r.Intn(3)]
	}
	if typ == "uint" {
		// as wide as the parameters but unsigned: uint(n) of a negative argument is a huge
		// value, not n
		lo = []string{"0", "n", "3", "n"}[r.Intn(4)]
		hi = []string{"n", "10", "n & 15", "n + 3", "5"}[r.Intn(5)]
	}
	if typ == "int" && r.Intn(6) == 0 {
		// a constant on the LEFT of a non-commutative operator in the start or the limit
		switch r.Intn(3) {
		case 0:
			hi = []string{"10 - n", "9 - m", "24 / (m&3 + 1)"}[r.Intn(3)]
		case 1:
			lo = []string{"3 - n", "2 - m"}[r.Intn(2)]
		default:
			lo, hi = "1 - n", "12 - m"
		}
	}
	divDecl := ""
	if typ == "int" && r.Intn(8) == 0 {
		// bounds computed by a division / remainder with a negative dividend that is often
		// inexact (Go truncates toward zero): -9 .. (m-20)/3, and (m-20)%4 .. 6
		// (the dividend is a local holding a constant: go/ssa keeps the division as an
		// instruction on two constants, which the analysis evaluates itself)
		dq := fmt.Sprintf("dq%d", *id)
		dqv := -(7 + 2*r.Intn(5)) // odd and negative: dqv/2 is inexact
		divDecl = fmt.Sprintf("%s := %d", dq, dqv)
		switch r.Intn(4) {
		case 3:
			// start is the FLOOR of the quotient, one below what Go computes: runs once
			lo, hi = fmt.Sprint((dqv-1)/2), dq+" / 2"
		case 0:
			lo, hi = "-9", dq+" / 2"
		case 1:
			lo, hi = "-12", dq+" / 4"
		default:
			lo, hi = dq+" % 4", "6"
		}
	}
	if up {
		start, bound = lo, hi
	} else {
		start, bound = hi, lo
	}
	m.Bound = bound
	m.Start = start
	if lo == ov && ov != "" {
		m.Nested = "inner-dep"
	}
	stepExpr := strconv.Itoa(k)
	if stepParam {
		stepExpr = "st"
	}
	sharedDecl := ""
	if typ == "int" && !stepParam && r.Intn(5) == 0 {
		// a local holding a constant: go/ssa lifts it to ONE shared constant object that is
		// the step (and, counting down, also the bound) of the loop
		sk := fmt.Sprintf("sk%d", L)
		sharedDecl = fmt.Sprintf("%s := %d", sk, k+1)
		stepExpr = sk
		if !up {
			bound = sk
			m.Bound = bound
		}
	}
	m.Step = map[bool]string{true: "+", false: "-"}[up] + stepExpr
	post := fmt.Sprintf("%s %s= %s", v, map[bool]string{true: "+", false: "-"}[up], stepExpr)
	if k == 1 && !stepParam && sharedDecl == "" && r.Intn(2) == 0 {
		post = v + map[bool]string{true: "++", false: "--"}[up]
	}
	w := func(format string, a ...any) { b.WriteString(ind); fmt.Fprintf(b, format, a...); b.WriteString("\n") }
	logv := "int64(" + v + ")"
	extraDecl, extraLog, extraUpd := "", "", ""
	switch r.Intn(7) {
	case 6:
		// x = K - x is not an induction variable (it alternates)
		m.Extra = "flipvar"
		extraDecl = fmt.Sprintf("f%d := 1", L)
		extraLog = fmt.Sprintf(", int64(f%d)", L)
		extraUpd = fmt.Sprintf("f%d = 3 - f%d", L, L)
	case 0:
		m.Extra = "condvar"
		extraDecl = fmt.Sprintf("c%d := 0", L)
		extraLog = fmt.Sprintf(", int64(c%d)", L)
		extraUpd = fmt.Sprintf("if %s%%3 == 0 {\n%s\t\tc%d += 2\n%s\t}", v, ind, L, ind)
	case 1:
		m.Extra = "second-iv"
		extraDecl = fmt.Sprintf("d%d := 10", L)
		extraLog = fmt.Sprintf(", int64(d%d)", L)
		extraUpd = fmt.Sprintf("d%d -= 2", L)
	case 2:
		m.Extra = "continue"
	case 3:
		m.Extra = "early-break" // a data-dependent second exit: no trip count may be claimed
	case 4:
		m.Extra = "early-return"
	}
	recCall := func() string {
		if extraLog != "" {
			return fmt.Sprintf("rec2(%d, %s%s)", L, logv, extraLog)
		}
		return fmt.Sprintf("rec1(%d, %s)", L, logv)
	}
	body := func(in string) {
		bw := func(format string, a ...any) { b.WriteString(in); fmt.Fprintf(b, format, a...); b.WriteString("\n") }
		if m.Extra == "continue" {
			bw("if %s&1 == 1 {", v)
			bw("\tcontinue")
			bw("}")
		}
		if m.Extra == "early-break" || m.Extra == "early-return" {
			// first thing in the body, so that the exit edge leaves the first body block
			cond := []string{fmt.Sprintf("int(%s) == m", v), "res > 12", fmt.Sprintf("int(%s)+m > 9", v)}[r.Intn(3)]
			bw("if %s {", cond)
			if m.Extra == "early-break" {
				bw("\tbreak")
			} else {
				bw("\tleave(%d)", L)
				bw("\treturn res")
			}
			bw("}")
		}
		bw("res += int(%s)", v)
		if extraUpd != "" {
			bw("%s", extraUpd)
		}
		if depth < 2 && r.Intn(3) == 0 {
			genLoop(r, b, id, depth+1, v, in, metas)
			(*metas)[len(*metas)-1].Nested += "inner"
		}
	}
	form := []string{"top", "top", "top", "breaktop", "breaktop-neg", "bottom", "while-continue"}[r.Intn(7)]
	if form == "while-continue" && (m.Extra == "continue" || !up || typ != "int") {
		form = "top"
	}
	if form == "top" && typ == "int" && up && m.Extra != "continue" && L%3 == 0 {
		// loops with two back edges are not left to chance: every third eligible loop is one
		form = "while-continue"
	}
	if m.Extra == "continue" && form == "bottom" {
		form = "top" // `continue` would skip the update of a bottom-tested loop
	}
	if (m.Extra == "early-break" || m.Extra == "early-return") && (form == "bottom" || form == "while-continue") {
		form = "top" // "times the exit test chose to stay" is only counted for a top test here
	}
	m.Form = form
	if form == "top" {
		m.Hdr = []string{"", "", "pre", "assign", "while", "pre-onearm"}[r.Intn(6)]
		if m.Hdr == "while" && m.Extra == "continue" {
			m.Hdr = "pre" // `continue` would skip the update written at the end of the body
		}
	}
	if divDecl != "" {
		w("%s", divDecl)
		w("_ = %s", strings.SplitN(divDecl, " ", 2)[0])
	}
	if sharedDecl != "" {
		w("%s", sharedDecl)
		if m.Extra == "second-iv" {
			extraUpd = fmt.Sprintf("d%d -= %s", L, stepExpr)
		}
	}
	m.Swap = r.Intn(3) == 0
	// tst renders `v <c> bound`, possibly mirrored (bound on the left)
	tst := func(c string) string {
		if m.Swap {
			return fmt.Sprintf("%s %s %s", conv(bound), mirrorCmp(c), v)
		}
		return fmt.Sprintf("%s %s %s", v, c, conv(bound))
	}
	w("enter(%d)", L)
	if extraDecl != "" {
		w("%s", extraDecl)
	}
	switch form {
	case "top":
		switch m.Hdr {
		case "":
			w("for %s := %s; %s; %s {", v, conv(start), tst(cmp), post)
		case "pre": // declared before the loop: no per-iteration copy of the variable
			w("%s := %s", v, conv(start))
			w("for ; %s; %s {", tst(cmp), post)
		case "pre-onearm":
			// declared before the loop and conditionally moved by a one-armed if right in front
			// of it: the header is entered from the if's block and from its arm, with two
			// different start values
			w("%s := %s", v, conv(start))
			w("if m&1 == 1 {")
			w("\t%s = %s + 2", v, v)
			w("}")
			w("for ; %s; %s {", tst(cmp), post)
		case "assign":
			w("var %s %s", v, typ)
			w("for %s = %s; %s; %s {", v, conv(start), tst(cmp), post)
		case "while":
			w("%s := %s", v, conv(start))
			w("for %s {", tst(cmp))
		}
		w("\t%s", recCall())
		body(ind + "\t")
		if m.Hdr == "while" {
			w("\t%s", post)
		}
		w("}")
		if m.Hdr != "" {
			w("res += int(%s)", v)
		}
	case "breaktop": // exit test written as the condition to LEAVE
		w("for %s := %s; ; %s {", v, conv(start), post)
		w("\tif %s {", tst(negCmp(cmp)))
		w("\t\tbreak")
		w("\t}")
		w("\t%s", recCall())
		body(ind + "\t")
		w("}")
	case "breaktop-neg": // exit test written as the negated stay condition
		w("for %s := %s; ; %s {", v, conv(start), post)
		w("\tif !(%s) {", tst(cmp))
		w("\t\tbreak")
		w("\t}")
		w("\t%s", recCall())
		body(ind + "\t")
		w("}")
	case "while-continue":
		// no post statement: `continue` jumps straight to the header, so the header has two
		// back edges that update the variable differently (not an induction variable)
		w("%s := %s", v, conv(start))
		w("for %s %s %s {", v, cmp, conv(bound))
		w("\t%s", recCall())
		w("\tif %s%%3 != 0 {", v)
		w("\t\tres += int(%s)", v)
		w("\t} else {")
		w("\t\t%s += 2", v)
		w("\t\tcontinue")
		w("\t}")
		body(ind + "\t")
		w("\t%s", post)
		w("}")
		w("res += int(%s)", v)
	case "bottom":
		w("%s := %s", v, conv(start))
		w("for {")
		w("\t%s", recCall())
		body(ind + "\t")
		w("\t%s", post)
		w("\tif %s {", tst(negCmp(cmp)))
		w("\t\tbreak")
		w("\t}")
		w("}")
		w("res += int(%s)", v)
	}
	w("leave(%d)", L)
	*metas = append(*metas, m)
}

func genFunc(r *rand.Rand, name string) fnMeta {
	var b strings.Builder
	var metas []loopMeta
	id := 0
	fmt.Fprintf(&b, "func %s(n int, m int, st int) (res int) {\n", name)
	b.WriteString("\tif st <= 0 {\n\t\tst = 1\n\t}\n")
	genLoop(r, &b, &id, 0, "", "\t", &metas)
	if r.Intn(3) == 0 {
		genLoop(r, &b, &id, 0, "", "\t", &metas)
		metas[len(metas)-1].Nested += "sibling"
	}
	b.WriteString("\treturn res\n}\n")
	return fnMeta{Name: name, Loops: metas, Text: b.String()}
}

var vectors = func() [][3]int {
	var out [][3]int
	ns := []int{-3, 0, 1, 2, 3, 5, 7, 10, 13, 20}
	for i, n := range ns {
		out = append(out, [3]int{n, ns[(i*3+2)%len(ns)], 1 + i%4})
	}
	out = append(out, [3]int{4, 4, 2}, [3]int{9, 0, 3}, [3]int{16, -3, 5}, [3]int{6, 20, 1})
	return out
}()

func mainSrc(fns []fnMeta) string {
	var b strings.Builder
	b.WriteString("package main\n\nimport (\n\t\"bufio\"\n\t\"fmt\"\n\t\"os\"\n\n\t\"example.com/c12/lp\"\n)\n\nvar vecs = [][3]int{")
	for _, v := range vectors {
		fmt.Fprintf(&b, "{%d, %d, %d}, ", v[0], v[1], v[2])
	}
	b.WriteString("}\n\nfunc run(w *bufio.Writer, name string, f func(int, int, int) int) {\n\tfor i, v := range vecs {\n\t\tlp.Trace = lp.Trace[:0]\n\t\tlp.Fuel = 3000\n\t\tstatus := \"ok\"\n\t\tfunc() {\n\t\t\tdefer func() {\n\t\t\t\tif r := recover(); r != nil {\n\t\t\t\t\tstatus = fmt.Sprint(\"panic:\", r)\n\t\t\t\t}\n\t\t\t}()\n\t\t\tf(v[0], v[1], v[2])\n\t\t}()\n\t\tfmt.Fprintln(w, \"F\", name, i, status)\n\t\tfor _, x := range lp.Trace {\n\t\t\tfmt.Fprint(w, x, \" \")\n\t\t}\n\t\tfmt.Fprintln(w)\n\t}\n}\n\nfunc main() {\n\tw := bufio.NewWriterSize(os.Stdout, 1<<20)\n\tdefer w.Flush()\n")
	for _, f := range fns {
		fmt.Fprintf(&b, "\trun(w, %q, lp.%s)\n", f.Name, f.Name)
	}
	b.WriteString("}\n")
	return b.String()
}

// ---------------------------------------------------------------------------------
// analysis side

type recSite struct {
	loop *loop.Loop
	args []ssa.Value // per logged position: the underlying value (Convert unwrapped)
}

func unwrap(v ssa.Value) ssa.Value {
	for {
		switch x := v.(type) {
		case *ssa.Convert:
			v = x.X
		case *ssa.ChangeType:
			v = x.X
		default:
			return v
		}
	}
}

func allLoops(ls []*loop.Loop) []*loop.Loop {
	var out []*loop.Loop
	for _, l := range ls {
		out = append(out, l)
		out = append(out, allLoops(l.Children)...)
	}
	return out
}

func findSites(fn *ssa.Function, info *loop.LoopInfo) map[int]*recSite {
	sites := map[int]*recSite{}
	loops := allLoops(info.Loops)
	for _, blk := range fn.Blocks {
		for _, in := range blk.Instrs {
			call, ok := in.(*ssa.Call)
			if !ok {
				continue
			}
			callee, ok := call.Call.Value.(*ssa.Function)
			if !ok || !strings.HasPrefix(callee.Name(), "rec") || len(call.Call.Args) < 2 {
				continue
			}
			c, ok := call.Call.Args[0].(*ssa.Const)
			if !ok || c.Value == nil {
				continue
			}
			L64, _ := constant.Int64Val(c.Value)
			var best *loop.Loop
			for _, l := range loops {
				if l.Blocks[blk] && (best == nil || len(l.Blocks) < len(best.Blocks)) {
					best = l
				}
			}
			if best == nil {
				continue
			}
			s := &recSite{loop: best}
			for _, a := range call.Call.Args[1:] {
				s.args = append(s.args, unwrap(a))
			}
			sites[int(L64)] = s
		}
	}
	return sites
}

func width(t types.Type) (bits int, signed bool, ok bool) {
	b, isB := t.Underlying().(*types.Basic)
	if !isB || b.Info()&types.IsInteger == 0 {
		return 0, false, false
	}
	switch b.Kind() {
	case types.Int8:
		return 8, true, true
	case types.Int16:
		return 16, true, true
	case types.Int32:
		return 32, true, true
	case types.Int, types.Int64, types.UntypedInt:
		return 64, true, true
	case types.Uint8:
		return 8, false, true
	case types.Uint16:
		return 16, false, true
	case types.Uint32:
		return 32, false, true
	case types.Uint, types.Uint64, types.Uintptr:
		return 64, false, true
	}
	return 0, false, false
}

func wrap(x *big.Int, t types.Type) *big.Int {
	bits, signed, ok := width(t)
	if !ok {
		return x
	}
	mod := new(big.Int).Lsh(big.NewInt(1), uint(bits))
	r := new(big.Int).Mod(x, mod)
	if signed && r.Cmp(new(big.Int).Lsh(big.NewInt(1), uint(bits-1))) >= 0 {
		r.Sub(r, mod)
	}
	return r
}

type env struct {
	args [3]int
	phi  map[ssa.Value]*big.Int // last logged value of header phis
}

func (e *env) value(v ssa.Value, depth int) (*big.Int, bool) {
	if depth > 30 {
		return nil, false
	}
	switch x := v.(type) {
	case *ssa.Const:
		if x.Value == nil || x.Value.Kind() != constant.Int {
			return nil, false
		}
		i, ok := new(big.Int).SetString(x.Value.ExactString(), 0)
		return i, ok
	case *ssa.Parameter:
		for i, p := range x.Parent().Params {
			if p == x && i < 3 {
				return big.NewInt(int64(e.args[i])), true
			}
		}
		return nil, false
	case *ssa.Phi:
		if val, ok := e.phi[x]; ok {
			return val, true
		}
		// st := max(st,1)-style merges of a parameter are resolved by execution order:
		// not evaluable here
		return nil, false
	case *ssa.Convert:
		in, ok := e.value(x.X, depth+1)
		if !ok {
			return nil, false
		}
		return wrap(in, x.Type()), true
	case *ssa.BinOp:
		a, ok1 := e.value(x.X, depth+1)
		b, ok2 := e.value(x.Y, depth+1)
		if !ok1 || !ok2 {
			return nil, false
		}
		r := new(big.Int)
		switch x.Op {
		case token.ADD:
			r.Add(a, b)
		case token.SUB:
			r.Sub(a, b)
		case token.MUL:
			r.Mul(a, b)
		case token.AND:
			r.And(a, b)
		case token.OR:
			r.Or(a, b)
		default:
			return nil, false
		}
		return wrap(r, x.Type()), true
	}
	return nil, false
}

func (e *env) scev(s loop.SCEV) (*big.Int, bool) {
	switch x := s.(type) {
	case *loop.SCEVConstant:
		return new(big.Int).Set(x.Value), true
	case *loop.SCEVUnknown:
		if x.Value == nil {
			return nil, false
		}
		return e.value(x.Value, 0)
	case *loop.SCEVGenericExpr:
		a, ok1 := e.scev(x.X)
		b, ok2 := e.scev(x.Y)
		if !ok1 || !ok2 {
			return nil, false
		}
		r := new(big.Int)
		switch x.Op {
		case token.ADD:
			r.Add(a, b)
		case token.SUB:
			r.Sub(a, b)
		case token.MUL:
			r.Mul(a, b)
		case token.QUO:
			if b.Sign() == 0 {
				return nil, false
			}
			r.Quo(a, b)
		case token.AND:
			r.And(a, b)
		case token.OR:
			r.Or(a, b)
		default:
			return nil, false
		}
		return r, true
	case *loop.SCEVMax:
		a, ok1 := e.scev(x.X)
		b, ok2 := e.scev(x.Y)
		if !ok1 || !ok2 {
			return nil, false
		}
		if a.Cmp(b) > 0 {
			return a, true
		}
		return b, true
	}
	return nil, false
}

// ---------------------------------------------------------------------------------

type activation struct {
	L        int
	startEnv map[ssa.Value]*big.Int
	recs     [][]int64
	left     bool
}

func judge(res *evid.Result, fm fnMeta, fn *ssa.Function, sites map[int]*recSite, vec [3]int, status string, trace []int64, replay func() map[string]any) {
	meta := map[int]loopMeta{}
	for _, m := range fm.Loops {
		meta[m.ID] = m
	}
	cur := map[ssa.Value]*big.Int{}
	open := map[int]*activation{}
	var done []*activation
	snapshot := func() map[ssa.Value]*big.Int {
		c := make(map[ssa.Value]*big.Int, len(cur))
		for k, v := range cur {
			c[k] = v
		}
		return c
	}
	for i := 0; i < len(trace); {
		switch trace[i] {
		case -1000001:
			L := int(trace[i+1])
			open[L] = &activation{L: L, startEnv: snapshot()}
			i += 2
		case -1000003:
			L := int(trace[i+1])
			if a := open[L]; a != nil {
				a.left = true
				done = append(done, a)
				delete(open, L)
			}
			i += 2
		case -1000002:
			L, n := int(trace[i+1]), int(trace[i+2])
			vals := trace[i+3 : i+3+n]
			if a := open[L]; a != nil {
				a.recs = append(a.recs, append([]int64{}, vals...))
			}
			if s := sites[L]; s != nil {
				for j, v := range vals {
					if j < len(s.args) {
						cur[s.args[j]] = big.NewInt(v)
					}
				}
			}
			i += 3 + n
		default:
			i++
		}
	}
	for _, a := range open { // activations cut short by a panic / fuel
		done = append(done, a)
	}
	for _, a := range done {
		s := sites[a.L]
		m := meta[a.L]
		if s == nil {
			res.Count("loops_not_identified", 1)
			continue
		}
		e := &env{args: vec, phi: a.startEnv}
		shape := fmt.Sprintf("%s%s%s|%s|%s|%s|%s|%s%s", m.Form, m.Hdr, map[bool]string{true: "~mirrored", false: ""}[m.Swap], m.Cmp, m.Step, m.Type, boundKind(m.Bound), m.Nested, m.Extra)
		// (i) induction variables
		overflowed := false
		for j, v := range s.args {
			phi, ok := v.(*ssa.Phi)
			if !ok || phi.Block() != s.loop.Header {
				continue
			}
			iv := s.loop.Inductions[phi]
			if iv == nil || iv.Type != loop.IVTypeBasic {
				continue
			}
			start, ok1 := e.scev(iv.Start)
			step, ok2 := e.scev(iv.Step)
			if !ok1 || !ok2 {
				res.Inconcl(1)
				res.Count("iv_not_evaluable", 1)
				continue
			}
			res.Distinct("iv|" + shape)
			for k, rec := range a.recs {
				if j >= len(rec) {
					break
				}
				raw := new(big.Int).Add(start, new(big.Int).Mul(step, big.NewInt(int64(k))))
				want := wrap(raw, phi.Type())
				if want.Cmp(raw) != 0 {
					overflowed = true
				}
				res.Eval(1)
				// the probe logs int(v): for a 64-bit unsigned variable the logged number is the
				// same bit pattern read as signed, so it is brought back to the variable's type
				if want.Cmp(wrap(big.NewInt(rec[j]), phi.Type())) != 0 {
					key := "iv-formula/" + m.Form + "/" + map[int]string{0: "loop-variable", 1: m.Extra}[j]
					w := replay()
					w["loop"], w["k"], w["logged"], w["formula"] = m, k, rec[j], fmt.Sprintf("{%s,+,%s} = %s", start, step, want)
					res.Violate(key, fmt.Sprintf("%s loop %d (%s): variable #%d is reported as {%s, +, %s} but at header evaluation %d it held %d, not %s (args %v)", fm.Name, a.L, shape, j, start, step, k, rec[j], want, vec), w)
					break
				}
			}
		}
		// (ii) trip count
		if !a.left || s.loop.TripCount == nil {
			continue
		}
		T, ok := e.scev(s.loop.TripCount)
		if !ok {
			res.Count("tripcount_not_evaluable", 1)
			continue
		}
		stays := len(a.recs)
		if m.Form == "bottom" {
			stays = len(a.recs) - 1
		}
		// what the analysis' OWN evaluator makes of the annotation (a number only when every
		// leaf is a constant): a consumer of the annotation evaluates it with this
		if own := s.loop.TripCount.EvaluateAt(big.NewInt(0), map[loop.SCEV]*big.Int{}); own != nil {
			res.Eval(1)
			res.Count("tripcounts_self_evaluated", 1)
			if own.Cmp(big.NewInt(int64(stays))) != 0 && own.Cmp(T) != 0 {
				w := replay()
				w["loop"], w["tripcount"], w["self_evaluated"], w["stays"] = m, s.loop.TripCount.String(), own.String(), stays
				res.Violate("tripcount/self-evaluation", fmt.Sprintf("%s loop %d: TripCount %s evaluates to %s under Go arithmetic and the body runs %d times, but the analysis' own EvaluateAt gives %s", fm.Name, a.L, s.loop.TripCount.String(), T, stays, own), w)
			}
		}
		res.Eval(1)
		res.Count("tripcounts_judged", 1)
		res.Distinct("tc|" + shape)
		if T.Cmp(big.NewInt(int64(stays))) != 0 {
			class := m.Form + "/" + m.Cmp
			switch {
			case m.Extra == "early-break" || m.Extra == "early-return":
				class = "early-exit"
			case (m.Cmp == "<=" || m.Cmp == ">=") && m.Start == m.Bound:
				class = "inclusive-start-equals-bound"
			case overflowed:
				// the variable passed through its type's overflow in this very trace
				class = "wraparound"
				if m.Cmp == "!=" && m.Step != "+1" && m.Step != "-1" {
					// a strided `!=` loop steps OVER its limit and only ends after wrapping
					// round to it: a trip count for it is another matter than the unit-step
					// wrap-around (which starts beyond the limit)
					class = "wraparound-strided-neq"
				}
			case m.Form == "breaktop" || m.Form == "bottom":
				// the true branch of the exit test LEAVES the loop
				class = "exit-on-true-polarity"
			case m.Type != "int" && m.Type != "int64":
				class = "narrow/" + m.Type + "/" + m.Form + "/" + m.Cmp
			case m.Cmp == "!=":
				class = "neq/" + m.Form
			}
			w := replay()
			w["loop"], w["tripcount"], w["stays"] = m, T.String(), stays
			res.Violate("tripcount/"+class, fmt.Sprintf("%s loop %d (%s): TripCount %s evaluates to %s for args %v but the exit test chose to stay %d times", fm.Name, a.L, shape, s.loop.TripCount.String(), T, vec, stays), w)
		}
	}
	_ = status
}

func boundKind(b string) string {
	if _, err := strconv.Atoi(b); err == nil {
		return "const"
	}
	return "param"
}

func batch(res *evid.Result, bi int, root string) {
	r := evid.Rand(int64(12000 + bi))
	dir := filepath.Join(root, fmt.Sprintf("b%d", bi))
	defer os.RemoveAll(dir)
	os.MkdirAll(filepath.Join(dir, "lp"), 0o755)
	n := evid.Pick(40, 100)
	var fns []fnMeta
	var src strings.Builder
	src.WriteString(prelude)
	for i := 0; i < n; i++ {
		f := genFunc(r, fmt.Sprintf("L%d", i))
		fns = append(fns, f)
		src.WriteString("\n")
		src.WriteString(f.Text)
	}
	os.WriteFile(filepath.Join(dir, "go.mod"), []byte("module example.com/c12\n\ngo 1.24\n"), 0o644)
	lpPath := filepath.Join(dir, "lp", "lp.go")
	os.WriteFile(lpPath, []byte(src.String()), 0o644)
	os.WriteFile(filepath.Join(dir, "main.go"), []byte(mainSrc(fns)), 0o644)
	cmd := exec.Command("go", "build", "-o", filepath.Join(dir, "run.bin"), ".")
	cmd.Dir = dir
	if out, err := cmd.CombinedOutput(); err != nil {
		res.Inconcl(1)
		res.Count("generator_reject", 1)
		res.Logf("C12 batch %d does not compile: %s\n", bi, tail(out))
		return
	}
	out, err := exec.Command("/bin/sh", "-c", "ulimit -v 4000000; exec "+filepath.Join(dir, "run.bin")).Output()
	if err != nil {
		res.Inconcl(1)
		res.Logf("C12 batch %d run failed: %v\n", bi, err)
		return
	}
	rs, err := diff.FingerprintSource(lpPath, src.String(), ir.DefaultLiteralPolicy)
	if err != nil {
		res.Inconcl(1)
		res.Logf("C12 batch %d load failed: %v\n", bi, err)
		return
	}
	ssaFn := map[string]*ssa.Function{}
	for _, x := range rs {
		if f := x.GetSSAFunction(); f != nil {
			ssaFn[f.Name()] = f
		}
	}
	type analysed struct {
		fn    *ssa.Function
		sites map[int]*recSite
	}
	an := map[string]*analysed{}
	byName := map[string]fnMeta{}
	for _, f := range fns {
		byName[f.Name] = f
		fn := ssaFn[f.Name]
		if fn == nil {
			res.Inconcl(1)
			continue
		}
		info := loop.DetectLoops(fn)
		loop.AnalyzeSCEV(info)
		sites := findSites(fn, info)
		an[f.Name] = &analysed{fn, sites}
		for _, m := range f.Loops {
			if sites[m.ID] == nil {
				res.Count("source_loops_without_analysed_loop", 1)
			} else {
				res.Count("source_loops_identified", 1)
			}
		}
	}
	sc := bufio.NewScanner(bytes.NewReader(out))
	sc.Buffer(make([]byte, 1<<20), 1<<26)
	for sc.Scan() {
		hdr := strings.Fields(sc.Text())
		if len(hdr) < 4 || hdr[0] != "F" || !sc.Scan() {
			continue
		}
		var trace []int64
		for _, t := range strings.Fields(sc.Text()) {
			x, _ := strconv.ParseInt(t, 10, 64)
			trace = append(trace, x)
		}
		vi, _ := strconv.Atoi(hdr[2])
		a := an[hdr[1]]
		if a == nil {
			continue
		}
		fm := byName[hdr[1]]
		res.Count("executions", 1)
		judge(res, fm, a.fn, a.sites, vectors[vi], hdr[3], trace, func() map[string]any {
			return map[string]any{"function": fm.Text, "args": vectors[vi], "batch": bi}
		})
	}
	if bi == 0 && len(fns) > 0 {
		res.Sample(map[string]any{"function": fns[0].Text, "loops": fns[0].Loops, "vectors": len(vectors)})
	}
	res.Count("functions", len(fns))
}

func tail(b []byte) string {
	if len(b) > 800 {
		b = b[len(b)-800:]
	}
	return string(b)
}

func main() {
	res := evid.New("C12")
	defer res.Write()
	res.Rule = "one evaluation = one logged header value compared with Start+k*Step (mod width), or one completed activation's stay count compared with the evaluated TripCount; distinct non-trivial = (loop form, comparison, step, integer type, bound kind, nesting/extras) tuples that yielded an evaluable IV or trip count"
	res.Assumptions = []string{"the instrumentation calls (enter/rec/leave) are part of the analysed program and leave header/latch structure unchanged", "the monitor's SCEV evaluator handles parameters, constants, logged header phis and pure integer expressions over them; anything else is undecided", "'body executes T times' is read as 'the exit test chose the in-loop successor T times per activation'"}
	root := evid.Scratch()
	nb := evid.Pick(4, 40)
	var wg sync.WaitGroup
	sem := make(chan struct{}, 8)
	for b := 0; b < nb; b++ {
		wg.Add(1)
		sem <- struct{}{}
		go func(b int) {
			defer wg.Done()
			defer func() { <-sem }()
			batch(res, b, root)
		}(b)
	}
	wg.Wait()
	geometric(res, root)
	if res.GetCount("tripcounts_judged") < 200 || res.GetCount("source_loops_identified") < 100 {
		res.Broken = fmt.Sprintf("too little observed: %d trip counts judged, %d loops identified", res.GetCount("tripcounts_judged"), res.GetCount("source_loops_identified"))
	}
	res.Logf("C12: functions=%d executions=%d loops identified=%d (unidentified %d) tripcounts judged=%d violations=%d\n", res.GetCount("functions"), res.GetCount("executions"), res.GetCount("source_loops_identified"), res.GetCount("source_loops_without_analysed_loop"), res.GetCount("tripcounts_judged"), res.NumViolations())
}
