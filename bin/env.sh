# Sourced by every verif script: pins the repository's own toolchain, offline.
export GOMODCACHE=${GOMODCACHE:-/root/go/pkg/mod}
VERIF_GOROOT_BIN=$GOMODCACHE/golang.org/toolchain@v0.0.1-go1.24.0.linux-amd64/bin
export PATH=$VERIF_GOROOT_BIN:$PATH
export GOTOOLCHAIN=local GOFLAGS=-mod=mod GOPROXY=off GOSUMDB=off
export VERIF_GO=$VERIF_GOROOT_BIN/go
